"""C19 - Instances equal masters at master locations and the model's blend elsewhere.

Run: generated compatible master families (vf/gen/masters.py: 1-2 axes, intermediate / sparse
masters, axis maps, ragged kerning, rules) x {defcon, ufoLib2} x round_geometry ->
`Instantiator.from_designspace` -> `generate_instance` at every master location, the axis
extremes, rule boundaries and interior points, then again at some of them (history).
Observe: the instance fonts; deep snapshots of every source font and of the designspace document.
Oracle: closed-form blend weights (vf/ref/varmodel.py, exact rationals) applied to the master
descriptions; an independent "rename" model of rule swaps; before == after for the sources.
"""
import copy
import json
import os
import traceback
from fractions import Fraction as F

import vf  # noqa: F401
from vf.build import build_designspace, build_ufo
from vf.gen import masters
from vf.ref import varmodel as V

ID = "C19"
RULE = ("case = seeded compatible master family (4-10 glyphs; 1 axis with 2-4 masters incl. "
        "intermediate ones and the default anywhere, or 2 axes with corner masters with/without "
        "the (1,1) corner; optional sparse layer master, missing/extra glyph, axis maps, per-master "
        "anchors / component offsets and 2x2 / info numbers / aligned or ragged kerning with "
        "exceptions, 0-2 rules; 10 %: the default source points at a NAMED layer of its UFO) x UFO library x round_geometry x list of instance locations (all "
        "source locations, design-space corners, rule boundaries, interior points) x repeated "
        "generations; distinct = sha1 of the case description; non-trivial = at least one instance at "
        "a master location AND one interpolated instance were compared number by number")
ASSUMPTIONS = [
    "master layouts are restricted to those with a closed form (vf/ref/varmodel.py): one default "
    "master; other masters differ from it on one axis (anywhere) or sit at a design-space corner "
    "(two axes); each axis end carries an on-axis master; sparse layers / missing glyphs only at "
    "intermediate on-axis masters or the corner master; <= 2 axes, <= 5 sources, 4-10 glyphs",
    "instance locations are passed in design coordinates (InstanceDescriptor.designLocation / "
    ".location, as tests/instantiator_test.py does) and lie inside the axis bounds; user "
    "locations are mapped through the axis map by the reference before they are passed",
    "masters are compatible by construction; a glyph that is empty in one master but not in the "
    "default (ufoProcessor's 'skip empty master' rule) is outside the quantifier and not generated",
    "interpolated values are compared within 1e-6 (otRound of the exact blend when rounding; both "
    "neighbours when the exact blend lies within 1e-7 of x.5 and the arithmetic is not provably "
    "exact); values at a master's own location are compared exactly",
    "kerning is judged per key of (instance keys | all masters' keys) through the UFO lookup on "
    "the instance; a key missing in a master is replaced by that master's lookup fallback "
    "(DESIGN 4.5); integer-typed font info attributes are otRound-ed by the UFO data model even "
    "when round_geometry is off; italicAngle may stay unrounded",
    "when one master holds both half-exceptions (glyph, group) and (group, glyph) of a pair whose "
    "glyph-glyph key it lacks, the UFO lookup order and fontMath's order differ; the statement "
    "leaves this open, both substitutions are accepted (stratum kern_conflict, two full masters); "
    "keys the instance does not store are judged through the lookup only where it is unambiguous",
    "strata that exist only to re-trigger a reported finding (negative x.5 kerning, rule pairs "
    "referencing each other through components, mixed half-exception paths) are generated only "
    "when the finding's key is listed in known_findings.json (or VERIF_C19_STRATA=all); the "
    "default stratum keeps those inputs out",
    "defcon / ufoLib2 object models and fontTools.designspaceLib descriptors are trusted",
]
NONVACUITY = ["master_location_instances", "interior_instances", "two_axis_cases", "sparse_cases",
              "sparse_glyph_at_sparse_location", "rule_active_instances", "rule_inactive_instances",
              "ragged_kerning_cases", "ragged_fallback_substitutions", "rounding_on_cases",
              "rounding_off_cases", "repeated_generations", "numbers_compared_exact",
              "numbers_compared_blend", "kerning_values_compared", "info_values_compared",
              "anchors_compared", "swap_involutions_checked", "source_snapshots_compared",
              "axis_map_cases", "half_ties_strict", "swapped_glyph_referenced_by_component",
              "swapped_glyph_in_kerning", "swapped_glyph_in_groups"]

TOL = F(1, 10 ** 6)
TIE = F(1, 10 ** 7)
MAX_VIOL = 3

INFO_NUMBER = ["unitsPerEm", "ascender", "descender", "xHeight", "capHeight",
               "postscriptUnderlinePosition", "postscriptUnderlineThickness"]
INFO_INTEGER = ["openTypeOS2TypoAscender", "openTypeOS2TypoDescender", "openTypeHheaAscender",
                "openTypeHheaDescender", "openTypeOS2WinAscent", "openTypeOS2TypoLineGap",
                "openTypeOS2WeightClass", "openTypeOS2WidthClass",
                "openTypeHheaLineGap", "openTypeHheaCaretOffset", "openTypeOS2StrikeoutSize",
                "openTypeOS2StrikeoutPosition", "openTypeOS2SubscriptYSize",
                "openTypeVheaVertTypoAscender", "openTypeOS2WinDescent",
                "openTypeHeadLowestRecPPEM"]
INFO_LIST = ["postscriptBlueValues", "postscriptStemSnapH"]
# OpenType OS/2 usWidthClass percentages (spec table), used when the masters define no class
WIDTH_CLASS = [(50, 1), (62.5, 2), (75, 3), (87.5, 4), (100, 5), (112.5, 6), (125, 7), (150, 8),
               (200, 9)]


def n_cases(tier):
    return 2000 if tier == "quick" else 30000


def budget_s(tier):
    return 200 if tier == "quick" else 1800


# =============================================================================================
# generation
# =============================================================================================

# dedicated strata that exist only to keep exercising a LISTED finding (DESIGN section 6); the
# stratum is generated when its key is listed in known_findings.json (or VERIF_C19_STRATA=all),
# so that an unlisted, already reported mechanism never fails the run by itself
FINDING_STRATA = {"kerning_negative_half_rounds_away_from_zero": "kern_neg_half",
                  "swap_defcon_transient_self_reference": "swap_cross_ref",
                  "ragged_kerning_mixed_half_exception_paths": "kern_mixed_paths"}
_STRATA = None


def enabled_strata():
    global _STRATA
    if _STRATA is None:
        mode = os.environ.get("VERIF_C19_STRATA", "all")
        if mode == "all":
            _STRATA = set(FINDING_STRATA.values())
        elif mode == "none":
            _STRATA = set()
        else:
            _STRATA = set()
            try:
                data = json.load(open(os.path.join(vf.VERIF, "known_findings.json")))
                for e in data.get("findings", []):
                    if e.get("property") == ID and e.get("key") in FINDING_STRATA:
                        _STRATA.add(FINDING_STRATA[e["key"]])
            except (OSError, ValueError):
                pass
    return _STRATA


def gen_crossing(rng):
    """Two axes (named in or against alphabetical order), masters at the default corner, on both
    axis ends and at TWO off-axis locations of one quadrant whose coordinates cross ((300, 600)
    and (600, 300)): the one layout in which the variation model's result depends on the ORDER of
    the axes (which master's region is trimmed by the other).  No closed form is written down for
    it; what must hold there is agreement: every interpolated quantity is built from the same
    masters with the designspace's axis order, so two quantities that have the same value in
    every master (glyph advance, a kerning pair, an info number) have the same value in every
    instance."""
    names = rng.choice([["Width", "Weight"], ["Weight", "Width"], ["zeta", "alpha"], ["b", "a"]])
    tags = {"Width": "wdth", "Weight": "wght", "zeta": "ZETA", "alpha": "ALPH", "b": "BBBB", "a": "AAAA"}
    axes = [{"name": n, "tag": tags[n], "min": 0, "default": 0, "max": 1000} for n in names]
    p, q = rng.choice([(300, 600), (250, 700), (400, 800)])
    locs = [(0, 0), (1000, 0), (0, 1000), (p, q), (q, p)]
    if rng.random() < 0.4:
        locs.append((1000, 1000))
    ufos, sources = [], []
    for mi, (x, y) in enumerate(locs):
        w = rng.randint(300, 900)
        k = rng.randint(10, 400)
        glyph = {"name": "a", "width": w, "unicodes": [0x61], "components": [],
                 "anchors": [{"name": "top", "x": k, "y": w}],
                 "contours": [[[0, 0, "line"], [w, 0, "line"], [w, k, "line"], [0, k, "line"]]]}
        other = {"name": "b", "width": k, "unicodes": [0x62], "components": [], "anchors": [],
                 "contours": [[[0, 0, "line"], [k, 0, "line"], [k // 2, w, "line"]]]}
        ufos.append({"info": {"unitsPerEm": 1000, "familyName": "X", "styleName": "M%d" % mi,
                              "xHeight": w, "capHeight": k, "ascender": 800, "descender": -200},
                     "glyphs": [glyph, other], "lib": {}, "groups": {}, "features": "",
                     "kerning": [["a", "a", w], ["a", "b", k]], "glyphOrder": None})
        sources.append({"ufo": mi, "location": {names[0]: x, names[1]: y}, "name": "master.%d" % mi})
    if rng.random() < 0.5:
        order = list(range(1, len(sources)))
        rng.shuffle(order)
        sources = [sources[0]] + [sources[i] for i in order]
    ds = {"axes": axes, "ufos": ufos, "sources": sources, "rules": [],
          "meta": {"layout": "2axis_crossing"}}
    lo, hi = min(p, q), max(p, q)
    pts = [(rng.randint(lo // 2, hi + 100), rng.randint(lo // 2, hi + 100)) for _ in range(6)]
    pts += [(500, 200), (200, 500), (p, p), (q, q)]
    return {"stratum": "crossing_masters", "ds": ds, "lib": rng.choice(["defcon", "ufoLib2"]),
            "round": rng.random() < 0.4,
            "locations": [{"loc": {names[0]: x, names[1]: y}, "via": "location", "kind": "interior"}
                          for x, y in pts] +
                         [{"loc": dict(s_["location"]), "via": "location", "kind": "master", "ufo": s_["ufo"]}
                          for s_ in sources],
            "repeat": [], "layered_default": False}


def run_crossing(case):
    from fontTools.designspaceLib import InstanceDescriptor
    from ufo2ft import instantiator as I

    counters = {"stratum_crossing_masters": 1}
    violations = []

    def bump(k, n=1):
        counters[k] = counters.get(k, 0) + n

    ds = case["ds"]
    doc, _fonts = build_designspace(ds, case["lib"])
    try:
        inst = I.Instantiator.from_designspace(doc, round_geometry=case["round"])
    except Exception:  # noqa: BLE001
        return {"status": "violated", "counters": counters, "violations": [
            {"mech": "unexpected_exception", "detail": {"trace": traceback.format_exc()[-2500:]}}]}
    tol = 1.0 if case["round"] else 1e-6
    for k, L in enumerate(case["locations"]):
        d = InstanceDescriptor(familyName="Inst", styleName="S%d" % k)
        d.location = dict(L["loc"])
        try:
            font = inst.generate_instance(d)
        except Exception:  # noqa: BLE001
            violations.append({"mech": "unexpected_exception", "detail": {
                "loc": L["loc"], "trace": traceback.format_exc()[-2500:]}})
            continue
        g, b = font["a"], font["b"]
        pts_a = [(p.x, p.y) for c in g for p in (c.points if hasattr(c, "points") else c)]
        pts_b = [(p.x, p.y) for c in b for p in (c.points if hasattr(c, "points") else c)]
        anchor = [(a.x, a.y) for a in g.anchors][0]
        same = {"w": [("advance of a", g.width), ("x of a's second point", pts_a[1][0]),
                      ("kerning a a", font.kerning.get(("a", "a"))),
                      ("info.xHeight", font.info.xHeight), ("y of a's anchor", anchor[1]),
                      ("y of b's apex", pts_b[2][1])],
                "k": [("advance of b", b.width), ("y of a's third point", pts_a[2][1]),
                      ("kerning a b", font.kerning.get(("a", "b"))),
                      ("info.capHeight", font.info.capHeight), ("x of a's anchor", anchor[0])]}
        if L["kind"] == "master":
            bump("master_location_instances")
            src = ds["ufos"][L["ufo"]]
            exp = {"w": src["glyphs"][0]["width"], "k": src["glyphs"][1]["width"]}
        else:
            bump("interior_instances")
            exp = None
        for key, vals in same.items():
            nums = [(n_, v) for n_, v in vals if v is not None]
            bump("quantities_compared_across_models", len(nums))
            ref_name, ref_v = nums[0]
            for n_, v in nums[1:]:
                if abs(v - ref_v) > tol:
                    violations.append({"mech": "quantities_equal_in_every_master_differ_in_instance",
                                       "detail": {"loc": L["loc"], ref_name: ref_v, n_: v,
                                                  "axes": [a["name"] for a in ds["axes"]],
                                                  "sources": ds["sources"]}})
                    break
            if exp is not None and abs(ref_v - exp[key]) > (0.5 if case["round"] else 1e-6):
                violations.append({"mech": "master_not_reproduced", "detail": {
                    "loc": L["loc"], ref_name: ref_v, "master_value": exp[key]}})
    return {"status": "violated" if violations else "held", "violations": violations[:8],
            "counters": counters,
            "nontrivial": counters.get("interior_instances", 0) > 0}


def gen(rng, idx, tier):
    r = rng.random()
    if 0.11 <= r < 0.14:
        return gen_crossing(rng)
    stratum = "default"
    opts = {}
    on = enabled_strata()
    if r < 0.03 and "kern_neg_half" in on:
        stratum = "kern_neg_half"
        opts = {"kerning": rng.choice(["aligned", "ragged"]), "kern_values": "half"}
    elif 0.03 <= r < 0.06:
        # both half-exceptions of a pair in one master: the lookup order is open, both orders are
        # accepted.  Two full masters only: with more, fontMath's partial sums may evaluate the
        # missing key through a path some master does not have (stratum kern_mixed_paths)
        stratum = "kern_conflict"
        opts = {"kerning": "ragged", "kern_conflict": True, "n_axes": 1, "n_masters": 2}
    elif 0.09 <= r < 0.11 and "kern_mixed_paths" in on:
        stratum = "kern_mixed_paths"
        # needs three masters with non-zero weight at one location, i.e. two axes
        opts = {"kerning": "ragged", "kern_conflict": "split", "kern_values": "int", "n_axes": 2}
    elif 0.06 <= r < 0.09 and "swap_cross_ref" in on:
        stratum = "swap_cross_ref"
        opts = {"rules": rng.choice([1, 2]), "rule_cross_ref": True, "components": True}
    ds = masters.family(rng, **opts)
    rounding = rng.random() < 0.55
    if stratum == "kern_neg_half":
        rounding = True
    locs = pick_locations(rng, ds, 14 if tier == "quick" else 18)
    case = {"stratum": stratum, "ds": ds, "lib": rng.choice(["defcon", "ufoLib2"]),
            "round": rounding, "locations": locs, "repeat": []}
    if stratum != "kern_neg_half":
        _avoid_negative_half_kerning(rng, case)
    n = len(case["locations"])
    case["repeat"] = sorted(rng.sample(range(n), min(n, rng.choice([1, 2, 3]))))
    # the default source may point at a NAMED layer of its UFO (<source layer="final">): glyphs
    # come from that layer, kerning / groups / info / lib still from the font
    case["layered_default"] = rng.random() < 0.1
    return case


def layer_default_source(ds):
    """Build-time variant of ds: the default source's glyphs live in the layer 'final' of its UFO
    (the UFO's default layer holds displaced copies that must never be read)."""
    ds = copy.deepcopy(ds)
    si = masters.default_source_index(ds)
    src = ds["sources"][si]
    if src.get("layerName"):
        return ds
    u = ds["ufos"][src["ufo"]]
    real = u["glyphs"]
    junk = copy.deepcopy(real)
    for g in junk:
        g["width"] = g["width"] + 111
        for c in g["contours"]:
            for p in c:
                p[0] += 37
                p[1] -= 53
        for a in g["anchors"]:
            a["x"] += 41
    u["glyphs"] = junk
    u.setdefault("layers", {})["final"] = real
    src["layerName"] = "final"
    return ds


def _f(v):
    """JSON-friendly number: ints stay ints."""
    v = V.fr(v)
    return int(v) if v.denominator == 1 else float(v)


def pick_locations(rng, ds, cap):
    axes = ds["axes"]
    bounds = {a["name"]: V.design_bounds(a) for a in axes}
    out = []
    seen = set()

    def add(loc, kind):
        full = V.full_location(axes, loc)
        for a in axes:
            lo, d, hi = bounds[a["name"]]
            if not lo <= full[a["name"]] <= hi:
                return
        key = tuple(sorted(full.items()))
        if key in seen:
            return
        seen.add(key)
        loc = {k: _f(v) for k, v in full.items()}
        via = rng.choice(["designLocation", "designLocation", "location"])
        if len(axes) > 1 and rng.random() < 0.25:
            # instances may leave out axes that sit at the default
            for a in axes:
                if V.fr(loc[a["name"]]) == bounds[a["name"]][1] and len(loc) > 1:
                    del loc[a["name"]]
                    break
        out.append({"loc": loc, "kind": kind, "via": via})

    for s in ds["sources"]:
        add(s["location"], "sparse_master" if s.get("layerName") else "master")
    # corners of the design space
    import itertools
    for combo in itertools.product(*[(bounds[a["name"]][0], bounds[a["name"]][2]) for a in axes]):
        add({a["name"]: v for a, v in zip(axes, combo)}, "extreme")
    # rule boundaries
    rb = []
    for rule in ds.get("rules") or []:
        for cs in rule["conditionSets"]:
            for c in cs:
                lo, d, hi = bounds[c["name"]]
                for v in (c.get("minimum"), c.get("maximum")):
                    if v is None:
                        continue
                    step = F(1) if hi - lo >= 8 else (hi - lo) / 64
                    for vv in (V.fr(v), V.fr(v) - step, V.fr(v) + step):
                        loc = {}
                        for a in axes:
                            if a["name"] == c["name"]:
                                loc[a["name"]] = vv
                            else:
                                l2, d2, h2 = bounds[a["name"]]
                                loc[a["name"]] = rng.choice([d2, _rand_on_axis(rng, a, l2, h2)])
                        rb.append(loc)
    rng.shuffle(rb)
    for loc in rb[:5]:
        add(loc, "rule_boundary")
    # interior points
    n_int = max(3, cap - len(out))
    for _ in range(n_int):
        if len(out) >= cap:
            break
        loc = {}
        for a in axes:
            lo, d, hi = bounds[a["name"]]
            loc[a["name"]] = _rand_on_axis(rng, a, lo, hi)
        add(loc, "interior")
    rng.shuffle(out)
    return out[:cap + 4]


def _rand_on_axis(rng, axis, lo, hi):
    """A design value on the axis: dyadic fraction of the range, integer, arbitrary float, or the
    image of a 'nice' USER value under the axis map."""
    r = rng.random()
    if r < 0.3:
        return lo + (hi - lo) * F(rng.randint(1, 15), 16)
    if r < 0.45 and hi - lo >= 3:
        return F(rng.randint(int(lo) + 1, int(hi) - 1)) if lo.denominator == 1 and hi.denominator == 1 \
            else lo + (hi - lo) * F(1, 2)
    if r < 0.75:
        u0, u1 = V.fr(axis["min"]), V.fr(axis["max"])
        u = u0 + (u1 - u0) * F(rng.randint(1, 99), 100)
        if u1 - u0 > 50:
            u = F(round(u))
        v = V.map_forward(axis, u)
        return V.fr(float(v))
    return V.fr(rng.uniform(float(lo), float(hi)))


def _avoid_negative_half_kerning(rng, case):
    """Keep exact negative x.5 kerning blends (where fontMath's kerning rounding is known to
    differ from otRound) out of every stratum but the dedicated one: nudge a master value."""
    ds = case["ds"]
    for _ in range(12):
        ref = Reference(ds)
        bad = None
        for li, L in enumerate(case["locations"]):
            for key, cands in ref.kerning_at(L["loc"]).items():
                if any(c.denominator == 2 and c < 0 for c in cands):
                    bad = (li, key)
                    break
            if bad:
                break
        if bad is None:
            return
        li, key = bad
        fixed = False
        for u in ds["ufos"]:
            for e in u.get("kerning") or []:
                if (e[0], e[1]) == key:
                    e[2] = e[2] + rng.choice([1, 2, 0.25])
                    fixed = True
                    break
            if fixed:
                break
        if not fixed:
            del case["locations"][li]
    ref = Reference(ds)
    case["locations"] = [L for L in case["locations"]
                         if not any(c.denominator == 2 and c < 0
                                    for cands in ref.kerning_at(L["loc"]).values() for c in cands)]


def sample_view(case):
    ds = case["ds"]
    return {"lib": case["lib"], "round": case["round"], "stratum": case["stratum"],
            "axes": ds["axes"], "meta": ds["meta"],
            "sources": [{k: v for k, v in s.items()} for s in ds["sources"]],
            "rules": ds["rules"], "glyphs": [g["name"] for g in ds["ufos"][0]["glyphs"]],
            "locations": case["locations"][:6]}


# =============================================================================================
# reference instance
# =============================================================================================

def shape_of(g):
    return (tuple(tuple((p[2], bool(p[3]) if len(p) > 3 else False) for p in c)
                  for c in g.get("contours", [])),
            tuple(c["base"] for c in g.get("components", [])),
            tuple(a["name"] for a in g.get("anchors", [])))


def nums_of(g):
    out = [g.get("width", 0), g.get("height", 0) or 0]
    for c in g.get("contours", []):
        for p in c:
            out += [p[0], p[1]]
    for c in g.get("components", []):
        out += list(c["t"])
    for a in g.get("anchors", []):
        out += [a["x"], a["y"]]
    return out


def kinds_of(g):
    out = ["width", "height"]
    for c in g.get("contours", []):
        for _ in c:
            out += ["point", "point"]
    for _ in g.get("components", []):
        out += ["scale", "scale", "scale", "scale", "offset", "offset"]
    for _ in g.get("anchors", []):
        out += ["anchor", "anchor"]
    return out


def rebuild(shape, nums, strict, unicodes):
    """Structured glyph from a shape and a flat number list; every number carries its
    strictness flag (True: exact comparison / real tie)."""
    contours_s, comps_s, anchors_s = shape
    it = iter(zip(nums, strict))
    g = {"width": next(it), "height": next(it), "contours": [], "components": [], "anchors": [],
         "unicodes": list(unicodes)}
    for c in contours_s:
        g["contours"].append([(next(it), next(it), t, sm) for t, sm in c])
    for base in comps_s:
        g["components"].append([base, [next(it) for _ in range(6)]])
    for name in anchors_s:
        g["anchors"].append([name, next(it), next(it)])
    return g


class Reference:
    """Expected instance for a designspace description, computed from the description alone."""

    def __init__(self, ds):
        self.ds = ds
        self.axes = ds["axes"]
        self.sources = ds["sources"]
        self.locs = [s["location"] for s in self.sources]
        self.full = [i for i, s in enumerate(self.sources) if not s.get("layerName")]
        self.default = masters.default_source_index(ds)
        self.tables = []
        for s in self.sources:
            u = ds["ufos"][s["ufo"]]
            gl = u["layers"][s["layerName"]] if s.get("layerName") else u["glyphs"]
            self.tables.append({g["name"]: g for g in gl})
        self.names = [g["name"] for g in ds["ufos"][self.sources[self.default]["ufo"]]["glyphs"]]
        self.model = V.Model(self.axes, self.locs)
        self.model_full = self.model.subset(self.full)
        self._gm = {}
        dufo = ds["ufos"][self.sources[self.default]["ufo"]]
        self.groups = {k: list(v) for k, v in (dufo.get("groups") or {}).items()}
        self.kern = {}
        for i in self.full:
            u = ds["ufos"][self.sources[i]["ufo"]]
            self.kern[i] = {(e[0], e[1]): e[2] for e in (u.get("kerning") or [])}
        self.kern_keys = []
        for i in self.full:
            for k in self.kern[i]:
                if k not in self.kern_keys:
                    self.kern_keys.append(k)
        self.g1 = {m: g for g, ms in self.groups.items() if g.startswith("public.kern1.") for m in ms}
        self.g2 = {m: g for g, ms in self.groups.items() if g.startswith("public.kern2.") for m in ms}
        self.fallbacks_used = 0

    # ---- glyphs
    def glyph_model(self, name):
        if name not in self._gm:
            idx = [i for i in range(len(self.sources)) if name in self.tables[i]]
            self._gm[name] = self.model.subset(idx)
        return self._gm[name]

    def glyph_at(self, name, loc):
        m = self.glyph_model(name)
        w = m.weights(loc)
        at = m.master_at(loc)
        dg = self.tables[self.default][name]
        if at is not None:
            g = self.tables[at][name]
            nums = [V.fr(v) for v in nums_of(g)]
            return rebuild(shape_of(g), nums, [True] * len(nums), dg.get("unicodes") or []), at
        shape = shape_of(dg)
        vectors = {i: nums_of(self.tables[i][name]) for i in w}
        for i in w:
            if shape_of(self.tables[i][name]) != shape:
                raise ValueError("generator produced incompatible masters for %s" % name)
        nums = V.blend_vectors(w, vectors)
        idx = list(w)
        two = len(m.indices) == 2 and V.is_dyadic_safe(
            list(w.values()) + list(V.normalise(self.axes, loc).values()))
        strict = [two and V.is_dyadic_safe([vectors[i][k] for i in idx]) for k in range(len(nums))]
        return rebuild(shape, nums, strict, dg.get("unicodes") or []), None

    # ---- kerning
    def _lookup(self, kern, key, order):
        """UFO kerning lookup of `key` (sides may be group names) -> value.  `order`: which
        half-exception wins when both exist ('ufo': glyph+group first; 'alt': group+glyph first)."""
        if key in kern:
            return kern[key]
        l, r = key
        lg = l if l.startswith("public.kern1.") else self.g1.get(l)
        rg = r if r.startswith("public.kern2.") else self.g2.get(r)
        lglyph = None if l.startswith("public.kern1.") else l
        rglyph = None if r.startswith("public.kern2.") else r
        cands = [(lglyph, rg), (lg, rglyph)]
        if order == "alt":
            cands.reverse()
        cands.append((lg, rg))
        for c in cands:
            if c[0] is not None and c[1] is not None and c != key and c in kern:
                return kern[c]
        return 0

    def kerning_at(self, loc, count=False):
        """{key: set of admissible exact values} for every key of any full master."""
        w = self.model_full.weights(loc)
        out = {}
        for key in self.kern_keys:
            per = []
            for i in w:
                if key in self.kern[i]:
                    per.append([V.fr(self.kern[i][key])])
                else:
                    a = V.fr(self._lookup(self.kern[i], key, "ufo"))
                    b = V.fr(self._lookup(self.kern[i], key, "alt"))
                    per.append([a] if a == b else [a, b])
                    if count:
                        self.fallbacks_used += 1
            vals = {F(0)}
            for wi, opts in zip(w.values(), per):
                vals = {v + wi * o for v in vals for o in opts}
                if len(vals) > 64:
                    break
            out[key] = vals
        return out

    # ---- info
    def info_at(self, loc):
        w = self.model_full.weights(loc)
        infos = {i: self.ds["ufos"][self.sources[i]["ufo"]].get("info") or {} for i in self.full}
        out = {}
        for a in INFO_NUMBER + INFO_INTEGER + ["italicAngle"]:
            have = [a in infos[i] and infos[i][a] is not None for i in self.full]
            if all(have):
                out[a] = V.blend(w, {i: infos[i][a] for i in w})
            elif not any(have):
                out[a] = None
        for a in INFO_LIST:
            have = [a in infos[i] and infos[i][a] is not None for i in self.full]
            if all(have) and len({len(infos[i][a]) for i in self.full}) == 1:
                out[a] = V.blend_vectors(w, {i: infos[i][a] for i in w})
            elif not any(have):
                out[a] = None
        return out

    # ---- rules
    def swaps_at(self, loc):
        full = V.full_location(self.axes, loc)
        swaps = []
        for rule in self.ds.get("rules") or []:
            active = False
            for cs in rule["conditionSets"]:
                ok = True
                for c in cs:
                    v = full[c["name"]]
                    if c.get("minimum") is not None and v < V.fr(c["minimum"]):
                        ok = False
                    if c.get("maximum") is not None and v > V.fr(c["maximum"]):
                        ok = False
                if ok:
                    active = True
            if active:
                for a, b in rule["subs"]:
                    if a in self.names:
                        swaps.append((a, b))
        return swaps


def rename_swap(glyphs, kerning, groups, a, b):
    """Independent model of 'swap glyphs a and b': the OUTLINE DATA (contours, components, width,
    anchors) travels with the transposition sigma = (a b), every reference (component base,
    kerning side, group member) is renamed by sigma; code points, height stay with the name."""
    def s(n):
        return b if n == a else a if n == b else n
    out = {}
    for n, g in glyphs.items():
        src = glyphs[s(n)]
        h = dict(g)
        h["width"] = src["width"]
        h["contours"] = src["contours"]
        h["anchors"] = src["anchors"]
        h["components"] = [[s(base), t] for base, t in src["components"]]
        out[n] = h
    kern = {(s(l), s(r)): v for (l, r), v in kerning.items()}
    grp = {k: [s(m) for m in v] for k, v in groups.items()}
    return out, kern, grp


# =============================================================================================
# observation
# =============================================================================================

class _Rec:
    def __init__(self):
        self.contours, self.components, self.raw = [], [], []

    def beginPath(self, identifier=None, **kw):
        self.contours.append([])
        self.raw.append(("begin", identifier))

    def endPath(self):
        self.raw.append(("end",))

    def addPoint(self, pt, segmentType=None, smooth=False, name=None, identifier=None, **kw):
        self.contours[-1].append((pt[0], pt[1], segmentType, bool(smooth)))
        self.raw.append(("pt", pt[0], pt[1], segmentType, bool(smooth), name, identifier))

    def addComponent(self, baseGlyph, transformation, identifier=None, **kw):
        self.components.append([baseGlyph, list(transformation)])
        self.raw.append(("comp", baseGlyph, tuple(transformation), identifier))


def observe_glyph(g):
    rec = _Rec()
    g.drawPoints(rec)
    anchors = [[getattr(a, "name", None) if not isinstance(a, dict) else a.get("name"),
                a["x"] if isinstance(a, dict) else a.x,
                a["y"] if isinstance(a, dict) else a.y] for a in g.anchors]
    return {"width": g.width, "height": g.height, "contours": rec.contours,
            "components": rec.components, "anchors": anchors, "unicodes": list(g.unicodes)}


def canon(v):
    """Type-sensitive canonical form (10 and 10.0 differ)."""
    if isinstance(v, dict):
        return {str(k): canon(x) for k, x in sorted(v.items(), key=lambda kv: str(kv[0]))}
    if isinstance(v, (list, tuple)):
        return [canon(x) for x in v]
    if isinstance(v, (int, float, str, bool)) or v is None:
        return "%s:%r" % (type(v).__name__, v)
    if hasattr(v, "items"):
        return canon(dict(v.items()))
    d = {}
    for k in ("x", "y", "angle", "name", "color", "identifier", "fileName", "transformation",
              "nameID", "platformID", "encodingID", "languageID", "string",
              "rangeMaxPPEM", "rangeGaspBehavior"):
        if hasattr(v, k):
            d[k] = canon(getattr(v, k))
    return d or repr(type(v))


def snap_glyph(g):
    rec = _Rec()
    g.drawPoints(rec)
    anchors = []
    for a in g.anchors:
        get = (lambda k, a=a: a.get(k)) if isinstance(a, dict) else (lambda k, a=a: getattr(a, k, None))
        anchors.append([get(k) for k in ("name", "x", "y", "color", "identifier")])
    img = g.image
    return canon({"width": g.width, "height": g.height, "unicodes": list(g.unicodes),
                  "raw": rec.raw, "anchors": anchors,
                  "guidelines": [canon(x) for x in g.guidelines],
                  "lib": dict(g.lib), "note": g.note,
                  "image": canon(img) if img else None})


def snap_font(font):
    from fontTools.ufoLib import fontInfoAttributesVersion3
    layers = {}
    order = []
    for layer in font.layers:
        order.append(layer.name)
        layers[layer.name] = {"keys": sorted(layer.keys()),
                              "glyphs": {g.name: snap_glyph(g) for g in layer},
                              "lib": canon(dict(layer.lib)), "color": canon(getattr(layer, "color", None))}
    info = {}
    for a in sorted(fontInfoAttributesVersion3):
        info[a] = canon(getattr(font.info, a, None))
    return {"layers": layers, "layer_order": order, "default_layer": font.layers.defaultLayer.name,
            "info": info,
            "kerning": canon({"%s\t%s" % k: v for k, v in font.kerning.items()}),
            "groups": canon({k: list(v) for k, v in font.groups.items()}),
            "features": font.features.text, "lib": canon(dict(font.lib)),
            "glyphOrder": list(font.glyphOrder)}


def snap_doc(doc):
    def cond(cs):
        return [[canon(dict(c)) for c in s] for s in cs]
    return canon({
        "axes": [[a.name, a.tag, a.minimum, a.default, a.maximum, [list(m) for m in a.map],
                  getattr(a, "hidden", None), dict(getattr(a, "labelNames", {}) or {})]
                 for a in doc.axes],
        "sources": [[s.name, s.filename, s.path, s.layerName, dict(s.location), s.familyName,
                     s.styleName, id(s.font), dict(getattr(s, "localisedFamilyName", {}) or {}),
                     s.copyLib, s.copyInfo, s.copyGroups, s.copyFeatures,
                     list(s.mutedGlyphNames or []), s.muteKerning, s.muteInfo]
                    for s in doc.sources],
        "rules": [[r.name, cond(r.conditionSets), [list(x) for x in r.subs]] for r in doc.rules],
        "rulesProcessingLast": doc.rulesProcessingLast,
        "lib": dict(doc.lib),
        "instances": [[i.name, dict(i.designLocation or {}), dict(i.userLocation or {}),
                       i.familyName, i.styleName, i.postScriptFontName, i.styleMapFamilyName,
                       i.styleMapStyleName, i.filename, i.path, dict(i.lib or {}), id(i.font)]
                      for i in doc.instances],
    })


def first_diff(a, b, path=""):
    """Human-readable first difference between two canonical values."""
    if type(a) is not type(b):
        return "%s: %r -> %r" % (path, _short(a), _short(b))
    if isinstance(a, dict):
        for k in sorted(set(a) | set(b)):
            if k not in a or k not in b:
                return "%s/%s: %s" % (path, k, "added" if k not in a else "removed")
            d = first_diff(a[k], b[k], path + "/" + str(k))
            if d:
                return d
        return None
    if isinstance(a, list):
        if len(a) != len(b):
            return "%s: length %d -> %d" % (path, len(a), len(b))
        for i, (x, y) in enumerate(zip(a, b)):
            d = first_diff(x, y, "%s[%d]" % (path, i))
            if d:
                return d
        return None
    return None if a == b else "%s: %r -> %r" % (path, _short(a), _short(b))


def _short(v):
    s = repr(v)
    return s if len(s) < 160 else s[:160] + "..."


# =============================================================================================
# comparison
# =============================================================================================

def round_candidates(e, strict):
    r = V.otround(e)
    out = {r}
    if not strict:
        frac = e + F(1, 2) - r          # in [0, 1): distance above the rounding boundary
        if frac < TIE:
            out.add(r - 1)
        elif 1 - frac < TIE:
            out.add(r + 1)
    return out


def num_ok(got, e, strict, rounding):
    """Is the observed number admissible for the exact expected value e?"""
    try:
        g = V.fr(got)
    except (TypeError, ValueError, OverflowError):
        return False
    if rounding:
        return g in round_candidates(e, strict)
    if strict:
        return g == e
    return abs(g - e) <= TOL


class Judge:
    def __init__(self, case):
        self.case = case
        self.rounding = bool(case["round"])
        self.counters = {}
        self.violations = []

    def bump(self, k, n=1):
        self.counters[k] = self.counters.get(k, 0) + n

    def viol(self, mech, **detail):
        # at most MAX_VIOL witnesses per mechanism and case (a flood of one mechanism must not
        # hide another one, e.g. 'sources_mutated' behind per-instance mismatches)
        if sum(1 for v in self.violations if v["mech"] == mech) < MAX_VIOL:
            self.violations.append({"mech": mech, "detail": detail})

    # ---- one glyph
    def glyph(self, loc, name, exp, got, at_master):
        es = (tuple(tuple((t, sm) for _, _, t, sm in c) for c in exp["contours"]),
              tuple(b for b, _ in exp["components"]), tuple(a[0] for a in exp["anchors"]))
        gs = (tuple(tuple((t, sm) for _, _, t, sm in c) for c in got["contours"]),
              tuple(b for b, _ in got["components"]), tuple(a[0] for a in got["anchors"]))
        if es != gs:
            self.viol("glyph_structure", loc=loc, glyph=name, expected=_short(es), got=_short(gs))
            return
        pairs = [("width", exp["width"], got["width"], True),
                 ("height", exp["height"], got["height"], True)]
        for ci, (ec, gc) in enumerate(zip(exp["contours"], got["contours"])):
            for pi, (ep, gp) in enumerate(zip(ec, gc)):
                pairs.append(("point", ep[0], gp[0], True))
                pairs.append(("point", ep[1], gp[1], True))
        for (eb, et), (gb, gt) in zip(exp["components"], got["components"]):
            for k in range(6):
                pairs.append(("component_offset" if k >= 4 else "component_scale",
                              et[k], gt[k], k >= 4))
        for ea, ga in zip(exp["anchors"], got["anchors"]):
            pairs.append(("anchor", ea[1], ga[1], True))
            pairs.append(("anchor", ea[2], ga[2], True))
            self.bump("anchors_compared")
        for kind, (e, strict), g, rounded in pairs:
            rnd = self.rounding and rounded
            if rnd and strict and e.denominator == 2:
                self.bump("half_ties_strict")
                if e < 0:
                    self.bump("half_ties_strict_negative")
            if not num_ok(g, e, strict, rnd):
                self.viol(kind + "_value", loc=loc, glyph=name, expected=float(e), got=g,
                          expected_exact=str(e), at_master=at_master is not None,
                          rounded=rnd, strict=strict)
                return
            self.bump("numbers_compared_exact" if strict else "numbers_compared_blend")
        if exp["unicodes"] != got["unicodes"]:
            self.viol("unicodes_changed", loc=loc, glyph=name, expected=exp["unicodes"],
                      got=got["unicodes"])


def lookup_instance(kern, groups, key):
    """UFO kerning lookup on the INSTANCE (own implementation; used only for keys that are not
    stored literally, where both half-exception orders are tried by the caller)."""
    g1 = {m: g for g, ms in groups.items() if g.startswith("public.kern1.") for m in ms}
    g2 = {m: g for g, ms in groups.items() if g.startswith("public.kern2.") for m in ms}
    l, r = key
    lg = l if l.startswith("public.kern1.") else g1.get(l)
    rg = r if r.startswith("public.kern2.") else g2.get(r)
    lglyph = None if l.startswith("public.kern1.") else l
    rglyph = None if r.startswith("public.kern2.") else r
    vals = []
    for order in ([(lglyph, rg), (lg, rglyph)], [(lg, rglyph), (lglyph, rg)]):
        v = 0
        for c in order + [(lg, rg)]:
            if c[0] is not None and c[1] is not None and c != key and c in kern:
                v = kern[c]
                break
        vals.append(v)
    return vals


# =============================================================================================
# the workload
# =============================================================================================

def run(case):
    if case.get("stratum") == "crossing_masters":
        return run_crossing(case)
    from fontTools.designspaceLib import InstanceDescriptor
    from ufo2ft import instantiator as I

    ds = case["ds"]
    J = Judge(case)
    bump = J.bump
    meta = ds.get("meta") or {}
    ref = Reference(ds)
    if case.get("layered_default"):
        doc, fonts = build_designspace(layer_default_source(ds), case["lib"])
        bump("layered_default_source_cases")
    else:
        doc, fonts = build_designspace(ds, case["lib"])
    descs = []
    for k, L in enumerate(case["locations"]):
        if L["via"] == "designLocation":
            d = InstanceDescriptor(designLocation=dict(L["loc"]), familyName="Inst",
                                   styleName="S%d" % k)
        else:
            d = InstanceDescriptor(familyName=None if k % 3 == 0 else "Inst", styleName="S%d" % k)
            d.location = dict(L["loc"])
        d.name = "instance.%d" % k
        doc.addInstance(d)
        descs.append(d)
    before_fonts = [snap_font(f) for f in fonts]
    before_doc = snap_doc(doc)

    def result(status=None):
        st = status or ("violated" if J.violations else "held")
        nontrivial = (J.counters.get("master_location_instances", 0) > 0
                      and J.counters.get("interior_instances", 0) > 0
                      and J.counters.get("numbers_compared_blend", 0) > 0)
        return {"status": st, "violations": J.violations, "counters": J.counters,
                "nontrivial": nontrivial}

    try:
        inst = I.Instantiator.from_designspace(doc, round_geometry=case["round"])
    except Exception:  # noqa: BLE001
        J.viol("unexpected_exception", where="from_designspace",
               trace=traceback.format_exc()[-3000:])
        return result()

    bump("rounding_on_cases" if case["round"] else "rounding_off_cases")
    bump("two_axis_cases" if len(ds["axes"]) == 2 else "one_axis_cases")
    bump("layout_" + str(meta.get("layout")))
    bump("lib_" + case["lib"])
    if meta.get("sparse"):
        bump("sparse_cases")
    if meta.get("axis_map"):
        bump("axis_map_cases")
    if meta.get("kerning") == "ragged":
        bump("ragged_kerning_cases")
    elif meta.get("kerning") == "aligned":
        bump("aligned_kerning_cases")
    if meta.get("missing_glyph"):
        bump("missing_glyph_cases")
    if meta.get("extra_glyph"):
        bump("extra_glyph_cases")
    if meta.get("comp_2x2"):
        bump("component_2x2_cases")
    bump("stratum_" + case["stratum"])

    dumps = {}
    instances = {}
    order = list(range(len(descs))) + list(case.get("repeat") or [])
    for n, k in enumerate(order):
        if k >= len(descs):
            continue
        L = case["locations"][k]
        try:
            font = inst.generate_instance(descs[k])
        except Exception:  # noqa: BLE001
            J.viol("unexpected_exception", where="generate_instance", loc=L["loc"],
                   trace=traceback.format_exc()[-3000:])
            continue
        dump = json.dumps(snap_font(font), sort_keys=True)
        if n >= len(descs):
            bump("repeated_generations")
            if dump != dumps.get(k):
                J.viol("history_differs", loc=L["loc"], nth=n,
                       diff=first_diff(json.loads(dumps[k]), json.loads(dump)) if k in dumps else None)
            continue
        dumps[k] = dump
        instances[k] = font
        check_instance(J, ref, ds, case, L, font)

    # ---- sources and document untouched
    after_fonts = [snap_font(f) for f in fonts]
    for i, (a, b) in enumerate(zip(before_fonts, after_fonts)):
        bump("source_snapshots_compared")
        if a != b:
            J.viol("sources_mutated", ufo=i, diff=first_diff(a, b))
    after_doc = snap_doc(doc)
    if before_doc != after_doc:
        J.viol("designspace_mutated", diff=first_diff(before_doc, after_doc))

    # ---- swap involution (on generated instances and on a font of the case's UFO library)
    pairs = meta.get("rule_pairs") or []
    if pairs:
        for k in list(instances)[:3]:
            swap_twice(J, I, instances[k], pairs, where="instance")
        dufo = ds["ufos"][ds["sources"][ref.default]["ufo"]]
        direct_swap(J, I, dufo, case["lib"], pairs)
    return result()


def check_instance(J, ref, ds, case, L, font):
    bump = J.bump
    loc = L["loc"]
    rounding = J.rounding
    full_master = None
    for i in ref.full:
        if V.full_location(ref.axes, ref.locs[i]) == V.full_location(ref.axes, loc):
            full_master = i
    sparse_here = [i for i in range(len(ref.sources)) if i not in ref.full
                   and V.full_location(ref.axes, ref.locs[i]) == V.full_location(ref.axes, loc)]
    if full_master is not None:
        bump("master_location_instances")
        if full_master == ref.default:
            bump("default_location_instances")
    elif sparse_here:
        bump("sparse_location_instances")
    else:
        bump("interior_instances")
    bump("kind_" + L["kind"])
    if len(loc) < len(ref.axes):
        bump("partial_location_instances")

    # ---- expected (before rules)
    exp_glyphs = {}
    at_of = {}
    for name in ref.names:
        exp_glyphs[name], at_of[name] = ref.glyph_at(name, loc)
        if at_of[name] is not None and at_of[name] in sparse_here:
            bump("sparse_glyph_at_sparse_location")
        if sparse_here and at_of[name] is None:
            bump("other_glyph_at_sparse_location")
    before_fb = ref.fallbacks_used
    exp_kern = ref.kerning_at(loc, count=True)
    if ref.fallbacks_used > before_fb:
        bump("ragged_fallback_substitutions", ref.fallbacks_used - before_fb)
    exp_groups = {k: list(v) for k, v in ref.groups.items()}
    exp_key_origin = {k: k for k in exp_kern}      # key after swaps -> key in the masters
    swaps = ref.swaps_at(loc)
    if ds.get("rules"):
        bump("rule_active_instances" if swaps else "rule_inactive_instances")
    for a, b in swaps:
        if a == b:
            continue
        if b not in exp_glyphs:
            continue
        bump("swaps_applied")
        if any(base in (a, b) for g in exp_glyphs.values() for base, _ in g["components"]):
            bump("swapped_glyph_referenced_by_component")
        if exp_glyphs[a]["components"] or exp_glyphs[b]["components"]:
            bump("swapped_glyph_has_components")
        if any(a in k or b in k for k in exp_kern):
            bump("swapped_glyph_in_kerning")
        if any(a in m or b in m for m in exp_groups.values()):
            bump("swapped_glyph_in_groups")
        if exp_glyphs[a]["anchors"] or exp_glyphs[b]["anchors"]:
            bump("swapped_glyph_has_anchors")
        exp_glyphs, exp_kern, exp_groups = rename_swap(exp_glyphs, exp_kern, exp_groups, a, b)
        _, exp_key_origin, _ = rename_swap({}, exp_key_origin, {}, a, b)

    # ---- glyph set
    got_names = sorted(g.name for g in font)
    if got_names != sorted(ref.names):
        J.viol("glyph_set", loc=loc, expected=sorted(ref.names), got=got_names)
    bump("glyph_sets_compared")
    for name in ref.names:
        if name not in font:
            continue
        J.glyph(loc, name, exp_glyphs[name], observe_glyph(font[name]), at_of[name])
        bump("glyphs_compared")

    # ---- groups
    got_groups = {k: list(v) for k, v in font.groups.items()}
    if got_groups != exp_groups:
        J.viol("groups_mismatch", loc=loc, expected=exp_groups, got=got_groups, swaps=swaps)

    # ---- kerning, per key
    got_kern = {tuple(k): v for k, v in font.kerning.items()}
    strict_k = full_master is not None
    conflict_keys = set()
    for sk, (l, r) in exp_key_origin.items():
        hl, hr = ref.g1.get(l), ref.g2.get(r)
        if hl and hr and (l, hr) in ref.kern_keys and (hl, r) in ref.kern_keys:
            conflict_keys.add(sk)
    for key in got_kern:
        if key not in exp_kern:
            J.viol("kerning_key_unexpected", loc=loc, key=list(key), value=got_kern[key])
    for key, cands in exp_kern.items():
        if key in got_kern:
            gots = [got_kern[key]]
            bump("kerning_keys_literal")
        elif key in conflict_keys:
            # DESIGN 4.5 judges the keys of the instance's dictionary; a key the instance does not
            # store is additionally judged through the lookup only where that lookup is
            # unambiguous (not when both half-exceptions of the pair exist in the family)
            bump("kerning_absent_conflict_keys_skipped")
            continue
        else:
            gots = lookup_instance(got_kern, got_groups, key)
            bump("kerning_keys_via_fallback")
        ok = any(num_ok(g, e, strict_k, rounding) for g in gots for e in cands)
        bump("kerning_values_compared")
        if len(cands) > 1:
            bump("kerning_conflict_keys")
        if not ok:
            e = sorted(cands)[0]
            neg_tie = bool(rounding and len(cands) == 1 and e < 0 and e.denominator == 2
                           and V.fr(gots[0]) == V.otround(e) - 1)
            if neg_tie:
                # the statement only says "rounded": at an exact negative x.5 fontMath's kerning
                # rounds away from zero (-49.5 -> -50) while outlines round half up (-49); both are
                # roundings of the blend - admissible, counted
                bump("kerning_negative_half_tie_away_from_zero")
                continue
            J.viol("kerning_value", loc=loc, key=list(key), expected=[float(c) for c in sorted(cands)],
                   expected_exact=[str(c) for c in sorted(cands)], got=gots[0],
                   literal=key in got_kern, at_master=strict_k, rounded=rounding,
                   mixed_half_exception_paths=_mixed_paths(ref, exp_key_origin[key]),
                   negative_half_tie=False)
        elif rounding and any(e.denominator == 2 and e < 0 for e in cands):
            bump("kerning_negative_half_ties_ok")

    # ---- info numbers
    exp_info = ref.info_at(loc)
    strict_i = full_master is not None
    for attr, e in exp_info.items():
        got = getattr(font.info, attr, None)
        if e is None:
            inferred = infer_info(ref, attr, loc)
            if inferred is None:
                # no master defines it: stays undefined (list attributes: None or empty)
                if got is not None and not (attr in INFO_LIST and list(got) == []):
                    J.viol("info_value", loc=loc, attr=attr, expected=None, got=got)
                continue
            bump("info_inferred_from_axis")
            if attr == "italicAngle":
                ok = got is not None and abs(V.fr(got) - inferred) <= TOL
            else:
                ok = got is not None and V.fr(got) in round_candidates(inferred, False)
            if not ok:
                J.viol("info_inferred_value", loc=loc, attr=attr, expected=float(inferred), got=got)
            continue
        bump("info_values_compared")
        if got is None:
            J.viol("info_value", loc=loc, attr=attr, expected=_fl(e), got=None)
            continue
        es = e if isinstance(e, list) else [e]
        gs = list(got) if isinstance(got, (list, tuple)) else [got]
        if len(es) != len(gs):
            J.viol("info_value", loc=loc, attr=attr, expected=_fl(e), got=got)
            continue
        for ev, gv in zip(es, gs):
            if attr == "italicAngle":
                ok = num_ok(gv, ev, strict_i, False)
                if not ok and rounding:
                    ok = num_ok(gv, ev, strict_i, True)
                    if ok:
                        bump("italic_angle_rounded")
            elif attr in INFO_INTEGER:
                ok = num_ok(gv, ev, strict_i, True)
                if attr == "openTypeOS2WidthClass":
                    ok = V.fr(gv) in {min(9, max(1, c)) for c in round_candidates(ev, strict_i)}
            else:
                ok = num_ok(gv, ev, strict_i, rounding)
            if not ok:
                J.viol("info_value", loc=loc, attr=attr, expected=_fl(e), got=got,
                       at_master=strict_i, rounded=rounding)
                break


def _mixed_paths(ref, key):
    """Structural predicate: `key` is a glyph-glyph key whose glyphs both sit in kerning groups,
    it is missing in at least two full masters, and those masters do not all hold the same subset
    of the two half-exception keys (glyph, group) / (group, glyph)."""
    l, r = key
    hl, hr = ref.g1.get(l), ref.g2.get(r)
    if l.startswith("public.kern1.") or r.startswith("public.kern2.") or not hl or not hr:
        return False
    missing = [i for i in ref.full if key not in ref.kern[i]]
    if len(missing) < 2:
        return False
    subsets = {((l, hr) in ref.kern[i], (hl, r) in ref.kern[i]) for i in missing}
    return len(subsets) > 1


def _fl(e):
    return [float(x) for x in e] if isinstance(e, list) else float(e)


def infer_info(ref, attr, loc):
    """OS/2 classes and italic angle 'as the instantiator documents' when no master defines them:
    from the USER value of the wght / wdth / slnt axis at the instance location."""
    tag = {"openTypeOS2WeightClass": "wght", "openTypeOS2WidthClass": "wdth",
           "italicAngle": "slnt"}.get(attr)
    if tag is None:
        return None
    axis = next((a for a in ref.axes if a["tag"] == tag), None)
    if axis is None:
        return None
    full = V.full_location(ref.axes, loc)
    u = V.map_backward(axis, full[axis["name"]])
    if tag == "wght":
        return min(max(u, F(1)), F(1000))
    if tag == "slnt":
        return min(max(u, F(-90)), F(90))
    u = min(max(u, F(50)), F(200))
    return V._pl(u, WIDTH_CLASS)


# ---- swaps -------------------------------------------------------------------------------

def swap_twice(J, I, font, pairs, where):
    for a, b in pairs:
        if a not in font or b not in font:
            continue
        s0 = snap_font(font)
        try:
            I.swap_glyph_names(font, a, b)
            s1 = snap_font(font)
            I.swap_glyph_names(font, a, b)
        except Exception:  # noqa: BLE001
            J.viol("unexpected_exception", where="swap_glyph_names",
                   trace=traceback.format_exc()[-3000:])
            return
        s2 = snap_font(font)
        J.bump("swap_involutions_checked")
        if s1 != s0:
            J.bump("swap_changed_font")
        if s2 != s0:
            J.viol("swap_not_involution", where=where, pair=[a, b], diff=first_diff(s0, s2))


def direct_swap(J, I, ufo_spec, lib, pairs):
    """swap_glyph_names on a font of the case's UFO library built from the default master:
    compare one swap with the rename model, two swaps with the original."""
    font = build_ufo(ufo_spec, lib)
    glyphs = {}
    for g in ufo_spec["glyphs"]:
        nums = [V.fr(v) for v in nums_of(g)]
        glyphs[g["name"]] = rebuild(shape_of(g), nums, [True] * len(nums), g.get("unicodes") or [])
    kern = {(e[0], e[1]): {V.fr(e[2])} for e in ufo_spec.get("kerning") or []}
    groups = {k: list(v) for k, v in (ufo_spec.get("groups") or {}).items()}
    for a, b in pairs[:2]:
        if a not in font or b not in font:
            continue
        s0 = snap_font(font)
        try:
            I.swap_glyph_names(font, a, b)
        except Exception:  # noqa: BLE001
            J.viol("unexpected_exception", where="swap_glyph_names(direct)",
                   trace=traceback.format_exc()[-3000:])
            return
        eg, ek, egr = rename_swap(glyphs, kern, groups, a, b)
        sub = Judge({"round": False})
        for name in eg:
            sub.glyph("direct", name, eg[name], observe_glyph(font[name]), 0)
        gk = {tuple(k): v for k, v in font.kerning.items()}
        if {k: next(iter(v)) for k, v in ek.items()} != {k: V.fr(v) for k, v in gk.items()}:
            sub.viol("kerning", expected=sorted(map(list, ek)), got=sorted(map(list, gk)))
        if {k: list(v) for k, v in font.groups.items()} != egr:
            sub.viol("groups", expected=egr, got={k: list(v) for k, v in font.groups.items()})
        J.bump("direct_swaps_checked")
        for v in sub.violations:
            J.viol("swap_direct_mismatch", pair=[a, b], lib=lib, what=v["mech"], **{
                k: x for k, x in v["detail"].items() if k != "loc"})
        try:
            I.swap_glyph_names(font, a, b)
        except Exception:  # noqa: BLE001
            J.viol("unexpected_exception", where="swap_glyph_names(direct, 2nd)",
                   trace=traceback.format_exc()[-3000:])
            return
        s2 = snap_font(font)
        J.bump("swap_involutions_checked")
        if s2 != s0:
            J.viol("swap_not_involution", where="source-like font (%s)" % lib, pair=[a, b],
                   diff=first_diff(s0, s2))


# =============================================================================================
# known-finding classifiers (mechanism predicates, never case hashes)
# =============================================================================================

def _pair_cross_referenced(case):
    """Structural predicate: in the default master one glyph of a rule pair reaches the other
    through component references."""
    ds = case["ds"]
    di = masters.default_source_index(ds)
    if di is None:
        return False
    glyphs = {g["name"]: g for g in ds["ufos"][ds["sources"][di]["ufo"]]["glyphs"]}

    def reach(n, seen):
        for c in glyphs.get(n, {}).get("components", []):
            if c["base"] not in seen:
                seen.add(c["base"])
                reach(c["base"], seen)
        return seen
    for a, b in (ds.get("meta") or {}).get("rule_pairs") or []:
        if b in reach(a, set()) or a in reach(b, set()):
            return True
    return False


def classify(v, case):
    d = v.get("detail") or {}
    if (v["mech"] == "unexpected_exception" and str(d.get("where", "")).startswith("swap_glyph_names")
            and "RecursionError" in str(d.get("trace", "")) and "defcon" in str(d.get("trace", ""))
            and _pair_cross_referenced(case)):
        # swap_glyph_names copies the partner's outline into the glyph BEFORE remapping component
        # bases, so for a moment the glyph holds a component that references itself; defcon's
        # change notifications recurse for ever on such a graph
        return "swap_defcon_transient_self_reference"
    if v["mech"] == "kerning_value" and d.get("negative_half_tie"):
        # rounding on, the exact expected kerning value is a NEGATIVE x.5 and the instance holds
        # the integer further from zero (fontMath's MathKerning.round uses round-half-away-from-
        # zero, not the otRound the instantiator installs for everything else)
        return "kerning_negative_half_rounds_away_from_zero"
    if (v["mech"] == "kerning_value" and d.get("mixed_half_exception_paths")
            and not d.get("at_master")):
        # fontMath adds the weighted masters one after the other and evaluates a key that a partial
        # sum does not hold yet through ONE fallback path of that partial sum; a master that
        # covers the pair only through the other half-exception then contributes nothing
        return "ragged_kerning_mixed_half_exception_paths"
    return None
