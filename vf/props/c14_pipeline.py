"""C14, pipeline stratum - the interpolatable pre-processor's use of the filters' reports.

The real `compileInterpolatable*FromDS` runs on a generated designspace (2-4 masters, mostly with
a sparse layer master, in a chosen source order) whose UFO libs carry a chain of custom filters:
filters that have an interpolatable variant (PropagateAnchors, DecomposeTransformedComponents,
FlattenComponents, DecomposeComponents) mixed with filters that have none and are therefore run
master by master (Transformations, ReverseContourDirection, SortContours).  Monitors wrapped
around `BaseInterpolatablePreProcessor._run` and the filters' `__call__` (from the harness, the
repository is not edited) record per step: the filter objects' own returned sets, the step's
returned set, a semantic snapshot of every glyph set before / after, and - at the quiescent point
after the step - whether the instantiator the later filters interpolate from is coherent with the
glyph sets: a glyph instantiated at the location of a master that holds it IS that master's glyph.

Oracles (mechanism 4 of the property: the reports are what decides whether the instantiator's
cached glyph models are dropped):
  run_report_not_union         the step's report differs from the union of its filters' reports
  run_report_misses_change     a glyph changed / added / removed by the step is not in its report
  instantiator_stale_after_run a cached or rebuilt glyph model no longer reproduces a glyph set
"""
import copy
import io
import traceback

import vf  # noqa: F401
from vf.build import build_designspace
from vf.gen import masters
from vf.mon import snap as M

POOL_I = ["propagateAnchors", "decomposeTransformedComponents", "flattenComponents",
          "decomposeComponents"]
POOL_M = ["transformations", "reverseContourDirection", "sortContours"]


def gen_pipeline(rng):
    fmt = rng.choice(["ttf", "otf"])
    kinds = ["line", "curve"] if fmt == "otf" else ["line", "qcurve"]
    ds = masters.family(rng, n_glyphs=rng.choice([4, 5, 6]), components=True, anchors=True,
                        sparse=rng.random() < 0.7, kerning="none", rules=0, missing_glyph=False,
                        extra_glyph=False, coord_mode="int", comp_2x2=False, kinds=kinds)
    order = rng.choice(["given", "sparse_last", "sparse_last", "default_last"])
    srcs = ds["sources"]
    if order == "sparse_last":
        srcs.sort(key=lambda s: bool(s.get("layerName")))
    elif order == "default_last":
        di = masters.default_source_index(ds)
        srcs.append(srcs.pop(di))
    names = [g["name"] for g in ds["ufos"][0]["glyphs"] if g["name"] != ".notdef"]
    used = [c["base"] for g in ds["ufos"][0]["glyphs"] for c in g["components"]]
    chain = []
    n = rng.choice([2, 3, 3, 4])
    for _ in range(n):
        if rng.random() < 0.5:
            name = rng.choice(POOL_I)
            f = {"name": name, "pre": True}
            if name == "decomposeComponents" and rng.random() < 0.7:
                f["include"] = rng.sample(names, rng.randint(1, len(names)))
        else:
            name = rng.choice(POOL_M)
            f = {"name": name, "pre": name != "sortContours" or rng.random() < 0.5}
            if name == "transformations":
                f["kwargs"] = {"OffsetX": rng.choice([50, -30, 17]), "OffsetY": rng.choice([0, 20])}
                pool = (used * 2 + names) if used else names
                f["include"] = sorted(set(rng.sample(pool, rng.randint(1, min(3, len(pool))))))
            elif rng.random() < 0.5:
                f["include"] = rng.sample(names, rng.randint(1, len(names)))
        chain.append(f)
    for u in ds["ufos"]:
        u.setdefault("lib", {})["com.github.googlei18n.ufo2ft.filters"] = copy.deepcopy(chain)
    return {"pipeline": True, "filter": "pipeline", "interp": True, "fmt": fmt, "ds": ds,
            "chain": chain, "order": order, "prewarm": rng.random() < 0.5,
            "lib": rng.choice(["defcon", "ufoLib2"])}


def sample_view(case):
    return {"pipeline": True, "fmt": case["fmt"], "chain": case["chain"], "order": case["order"],
            "prewarm": case["prewarm"], "lib": case["lib"], "sources": case["ds"]["sources"],
            "meta": case["ds"].get("meta"),
            "glyphs": [(g["name"], len(g["contours"]), [c["base"] for c in g["components"]])
                       for g in case["ds"]["ufos"][0]["glyphs"]]}


def _state(mapping):
    return {name: M.glyph_snapshot(g) for name, g in mapping.items()}


def _geom(g):
    """Interpolated quantities of a glyph: width, points, component matrices, anchors."""
    s = M.glyph_snapshot(g)
    return {"width": s["width"],
            "contours": [[(p[0], p[1], p[2]) for p in pts] for pts, _i in s["contours"]],
            "components": [(b, tuple(t)) for b, t, _i in s["components"]],
            "anchors": [(a[0], a[1], a[2]) for a in s["anchors"]]}


def _close(a, b, tol):
    if isinstance(a, (int, float)) and isinstance(b, (int, float)):
        return abs(a - b) <= tol
    if isinstance(a, (list, tuple)) and isinstance(b, (list, tuple)):
        return len(a) == len(b) and all(_close(x, y, tol) for x, y in zip(a, b))
    if isinstance(a, dict) and isinstance(b, dict):
        return a.keys() == b.keys() and all(_close(a[k], b[k], tol) for k in a)
    return a == b


def coherence(pp, bump):
    """Instantiate every glyph at the location of every master that holds it, through the
    instantiator's CURRENT state (cached models included), and compare with the glyph set.  The
    model cache is restored afterwards so that the observed run is not perturbed."""
    inst = pp.instantiator
    out = []
    if inst is None:
        return out
    saved = dict(inst.glyph_mutators)
    try:
        tol = 0.5001 if inst.round_geometry else 1e-3
        for mi, (gs, layer) in enumerate(zip(pp.glyphSets, inst.interpolated_layers)):
            for name in list(gs.keys()):
                try:
                    got = _geom(layer._interpolate(name))
                except Exception:  # noqa: BLE001 - masters no longer compatible: nothing to say
                    bump("pipeline_uninterpolatable_glyphs")
                    continue
                bump("pipeline_coherence_instantiations")
                exp = _geom(gs[name])
                if not _close(exp, got, tol):
                    out.append({"master": mi, "glyph": name, "cached_model": name in saved,
                                "glyph_set": str(exp)[:500], "instantiated": str(got)[:500]})
            # glyphs this layer handed out earlier (interpolated because the master lacks
            # them) and still holds: they must be what interpolating NOW gives
            for name, held in list(getattr(layer, "_cache", {}).items()):
                if name in gs:
                    continue
                try:
                    fresh = _geom(layer._interpolate(name))
                except Exception:  # noqa: BLE001
                    continue
                bump("pipeline_held_interpolated_glyphs_checked")
                if not _close(_geom(held), fresh, tol):
                    out.append({"master": mi, "glyph": name, "held_interpolated_glyph_is_stale": True,
                                "held": str(_geom(held))[:400], "fresh": str(fresh)[:400]})
    finally:
        inst.glyph_mutators.clear()
        inst.glyph_mutators.update(saved)
    return out


def run_pipeline(case):
    import ufo2ft
    import ufo2ft.preProcessor as PP
    from ufo2ft.filters.base import BaseFilter, BaseIFilter

    counters = {"pipeline_cases": 1}

    def bump(k, n=1):
        counters[k] = counters.get(k, 0) + n

    events = []
    stack = []
    orig_run = PP.BaseInterpolatablePreProcessor._run
    orig_call = BaseFilter.__call__
    orig_icall = BaseIFilter.__call__

    # (the wrappers keep the exact parameter lists: ufo2ft's isValidFilter compares the argument
    # names of __call__ with those of the base classes)
    def call(self, font, glyphSet=None):
        r = orig_call(self, font, glyphSet)
        if stack:
            stack[-1]["returns"].append((type(self).__name__, sorted(r or ())))
        return r

    def icall(self, fonts, glyphSets=None, instantiator=None, **kwargs):
        r = orig_icall(self, fonts, glyphSets, instantiator, **kwargs)
        if stack:
            stack[-1]["returns"].append((type(self).__name__, sorted(r or ())))
        return r

    def run(self, *filters):
        if case["prewarm"] and self.instantiator is not None:
            # fill the model cache the way an earlier interpolating filter would have
            for layer in self.instantiator.interpolated_layers:
                for name in list(self.instantiator.glyph_names):
                    try:
                        layer._interpolate(name)
                    except Exception:  # noqa: BLE001
                        pass
        ev = {"filters": [type(f).__name__ for f in filters if f is not None], "returns": [],
              "before": [_state(gs) for gs in self.glyphSets],
              "instantiator": self.instantiator is not None}
        stack.append(ev)
        try:
            ret = orig_run(self, *filters)
        finally:
            stack.pop()
        ev["ret"] = sorted(ret or ())
        after = [_state(gs) for gs in self.glyphSets]
        changed = set()
        for b, a in zip(ev.pop("before"), after):
            changed |= {n for n in set(a) | set(b) if a.get(n) != b.get(n)}
        ev["changed"] = sorted(changed)
        ev["incoherent"] = coherence(self, bump)
        events.append(ev)
        return ret

    PP.BaseInterpolatablePreProcessor._run = run
    BaseFilter.__call__ = call
    BaseIFilter.__call__ = icall
    try:
        doc, _fonts = build_designspace(case["ds"], case["lib"])
        f = (ufo2ft.compileInterpolatableOTFsFromDS if case["fmt"] == "otf"
             else ufo2ft.compileInterpolatableTTFsFromDS)
        kw = {"useProductionNames": False}
        if case["fmt"] == "otf":
            kw["optimizeCFF"] = 0
        try:
            res = f(doc, **kw)
            for s in res.sources:
                s.font.save(io.BytesIO())
            bump("pipeline_compiled")
        except Exception:  # noqa: BLE001 - per-master filters may legitimately break compatibility
            bump("pipeline_compile_failed")
            counters["pipeline_last_error"] = 0
            note = traceback.format_exc()[-400:]
        else:
            note = None
    finally:
        PP.BaseInterpolatablePreProcessor._run = orig_run
        BaseFilter.__call__ = orig_call
        BaseIFilter.__call__ = orig_icall
    counters.pop("pipeline_last_error", None)
    violations = []
    for k, ev in enumerate(events):
        bump("pipeline_steps_observed")
        union = sorted({n for _c, r in ev["returns"] for n in r})
        if len(ev["returns"]) > 1:
            bump("pipeline_per_master_steps")
            if len({tuple(r) for _c, r in ev["returns"]}) > 1:
                bump("pipeline_per_master_steps_with_differing_reports")
        if ev["returns"] and ev["ret"] != union:
            violations.append({"mech": "run_report_not_union", "detail": {
                "step": k, "filters": ev["filters"], "individual_reports": ev["returns"],
                "step_report": ev["ret"]}})
        if ev["changed"]:
            bump("pipeline_steps_that_changed_glyphs")
        missed = sorted(set(ev["changed"]) - set(ev["ret"]))
        if missed:
            violations.append({"mech": "run_report_misses_change", "detail": {
                "step": k, "filters": ev["filters"], "changed": ev["changed"],
                "step_report": ev["ret"], "missed": missed}})
        if ev["incoherent"]:
            violations.append({"mech": "instantiator_stale_after_run", "detail": {
                "step": k, "filters": ev["filters"], "step_report": ev["ret"],
                "individual_reports": ev["returns"], "changed": ev["changed"],
                "first": ev["incoherent"][:3], "count": len(ev["incoherent"])}})
        if ev["instantiator"]:
            bump("pipeline_steps_with_instantiator")
    if not events:
        return {"status": "inconclusive", "counters": counters, "note": note or "no step observed"}
    return {"status": "violated" if violations else "held", "violations": violations[:6],
            "counters": counters,
            "nontrivial": any(ev["changed"] for ev in events)}
