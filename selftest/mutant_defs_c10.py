def define(M):
    K = "Lib/ufo2ft/featureWriters/kernFeatureWriter.py"
    M("C10", "missing_pair_contributes_zero", K,
      "                value = quantize(\n                    lookupKerningValue(\n                        pair,\n                        kerning,\n                        unified_groups,\n                        glyphToFirstGroup=glyphToFirstGroup,\n                        glyphToSecondGroup=glyphToSecondGroup,\n                    ),\n                    quantization,\n                )",
      "                value = quantize(kerning.get(pair, 0), quantization)", cases=300)
    M("C10", "location_in_design_coordinates", "Lib/ufo2ft/util.py",
      "    location_user = designspace.map_backward(location)\n",
      "    location_user = dict(location)\n", cases=300)
    M("C10", "anchor_values_from_default_source_only", "Lib/ufo2ft/featureWriters/baseFeatureWriter.py",
      "                        x_value.add_value(location, otRound(anchor.x))\n                        y_value.add_value(location, otRound(anchor.y))",
      "                        x_value.add_value(location, otRound(anchor.x))\n                        y_value.add_value(location, otRound(designspace.findDefault().font[glyphName].anchors[0].y if designspace.findDefault().font[glyphName].anchors else anchor.y))", cases=300)
    M("C10", "kerning_from_last_source_wins", K,
      "                var_scalar.values[location] = value\n",
      "                var_scalar.values[location] = value if len(var_scalar.values) < 2 else list(var_scalar.values.values())[0]\n", cases=300)
    M("C10", "merge_path_uses_default_master_features", "Lib/ufo2ft/_compilers/baseCompiler.py",
      "        if layerName is None and not self.skipFeatureCompilation:\n            if self.debugFeatureFile:\n                self.debugFeatureFile.write(\"\\n### %s ###\\n\" % fontName)\n            self.compileFeatures(ufo, ttf, glyphSet=glyphSet)",
      "        if layerName is None and not self.skipFeatureCompilation:\n            if self.debugFeatureFile:\n                self.debugFeatureFile.write(\"\\n### %s ###\\n\" % fontName)\n            self._first_ufo = getattr(self, '_first_ufo', ufo)\n            self.compileFeatures(self._first_ufo, ttf, glyphSet=glyphSet)", cases=300)
    # (rounding the interpolatable masters early was tried: nothing observable at master locations)
    M("C10", "glyph_width_from_default_in_sparse_aware_path", "Lib/ufo2ft/outlineCompiler.py",
      "            width = otRound(glyph.width)\n            if width < 0:",
      "            width = otRound(glyph.width) if self.compilingVFDefaultSource else otRound(glyph.width) + 2\n            if width < 0:", cases=300)
    # the repaired defect (655c8e0) put back
    M("C10", "interpolated_layer_truthiness", "Lib/ufo2ft/instantiator.py",
      "            if glyph is None:\n                glyph = self._interpolate(glyph_name)",
      "            if not glyph:\n                glyph = self._interpolate(glyph_name)")
