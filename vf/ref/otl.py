"""Readers for compiled (saved + reloaded) OpenType layout tables: GDEF glyph classes and
ligature carets, the GSUB/GPOS ScriptList -> LangSys -> feature -> lookup graph, lookup coverages
per role, and cursive attachment records.  Only fontTools' *decompiler* is trusted; nothing from
ufo2ft is used.  All functions take a fontTools TTFont that was loaded from bytes."""


# --------------------------------------------------------------------------- GDEF

def gdef_classes(tt):
    """{glyph: class} (1 base, 2 ligature, 3 mark, 4 component); class 0 entries omitted."""
    if "GDEF" not in tt:
        return {}
    cd = getattr(tt["GDEF"].table, "GlyphClassDef", None)
    if cd is None:
        return {}
    return {g: c for g, c in cd.classDefs.items() if c != 0}


def gdef_lig_carets(tt):
    """{glyph: [("coord", v) | ("point", n) | ("device", v), ...]} in stored order."""
    if "GDEF" not in tt:
        return {}
    lcl = getattr(tt["GDEF"].table, "LigCaretList", None)
    if lcl is None or lcl.Coverage is None:
        return {}
    out = {}
    for g, lg in zip(lcl.Coverage.glyphs, lcl.LigGlyph):
        vals = []
        for cv in lg.CaretValue:
            if cv.Format == 1:
                vals.append(("coord", cv.Coordinate))
            elif cv.Format == 2:
                vals.append(("point", cv.CaretValuePoint))
            else:
                vals.append(("device", cv.Coordinate))
        if g in out:
            out[g] = out[g] + [("dup-coverage", 0)] + vals
        else:
            out[g] = vals
    return out


# --------------------------------------------------------------------------- script graph

def script_graph(tt, tag="GPOS"):
    """Returns None when the table (or its lists) is absent, else a dict:
      features: [(featureTag, [lookupIndex, ...])]           (FeatureList order)
      scripts:  {scriptTag: {"dflt": [featureIndex..] | None,
                             "langs": {langTag: [featureIndex..]}}}
    A LangSys' required feature (ReqFeatureIndex != 0xFFFF) is included in its index list."""
    if tag not in tt:
        return None
    table = tt[tag].table
    fl = getattr(table, "FeatureList", None)
    sl = getattr(table, "ScriptList", None)
    features = []
    if fl is not None:
        for fr in fl.FeatureRecord:
            features.append((fr.FeatureTag, list(fr.Feature.LookupListIndex)))
    scripts = {}
    if sl is not None:
        for sr in sl.ScriptRecord:
            ent = scripts.setdefault(sr.ScriptTag, {"dflt": None, "langs": {}})
            if sr.Script.DefaultLangSys is not None:
                ent["dflt"] = _langsys(sr.Script.DefaultLangSys)
            for lr in sr.Script.LangSysRecord:
                ent["langs"][lr.LangSysTag] = _langsys(lr.LangSys)
    return {"features": features, "scripts": scripts}


def _langsys(ls):
    idx = list(ls.FeatureIndex)
    req = getattr(ls, "ReqFeatureIndex", 0xFFFF)
    if req is not None and req != 0xFFFF:
        idx = [req] + idx
    return idx


# --------------------------------------------------------------------------- lookups

def lookups(tt, tag="GPOS"):
    """[{index, type, flag, mark_filtering_set, subtables}] with Extension subtables unwrapped
    (type = the real lookup type)."""
    if tag not in tt:
        return []
    ll = getattr(tt[tag].table, "LookupList", None)
    if ll is None:
        return []
    ext_type = 9 if tag == "GPOS" else 7
    out = []
    for i, lk in enumerate(ll.Lookup):
        subs = []
        ltype = lk.LookupType
        for st in lk.SubTable:
            if lk.LookupType == ext_type:
                ltype = st.ExtensionLookupType
                st = st.ExtSubTable
            subs.append(st)
        out.append({"index": i, "type": ltype, "flag": lk.LookupFlag,
                    "mark_filtering_set": getattr(lk, "MarkFilteringSet", None),
                    "subtables": subs})
    return out


def _cov(c):
    return set(c.glyphs) if c is not None else set()


def gpos_lookup_glyphs(lk):
    """Glyphs a GPOS lookup acts on, per role: {"first"/"base"/"mark"/"ligature"/"cursive"/
    "input": set}.  Contextual lookups (7/8) report their input coverage where it is stored as
    coverage tables (format 3) and are flagged by the key "contextual"."""
    roles = {}

    def add(role, glyphs):
        roles.setdefault(role, set()).update(glyphs)

    for st in lk["subtables"]:
        t = lk["type"]
        if t in (1, 2):
            add("first", _cov(st.Coverage))
            if t == 2:
                if st.Format == 1:
                    for ps in st.PairSet:
                        add("second", {r.SecondGlyph for r in ps.PairValueRecord})
                else:
                    add("second", {g for g in st.ClassDef2.classDefs})
                    roles["second_class0"] = {"*"}
        elif t == 3:
            add("cursive", _cov(st.Coverage))
        elif t == 4:
            add("mark", _cov(st.MarkCoverage))
            add("base", _cov(st.BaseCoverage))
        elif t == 5:
            add("mark", _cov(st.MarkCoverage))
            add("ligature", _cov(st.LigatureCoverage))
        elif t == 6:
            add("mark", _cov(st.Mark1Coverage))
            add("base_mark", _cov(st.Mark2Coverage))
        elif t in (7, 8):
            roles["contextual"] = {"*"}
            if getattr(st, "Format", None) == 3:
                for c in getattr(st, "InputCoverage", None) or getattr(st, "Coverage", None) or []:
                    add("input", _cov(c))
            elif getattr(st, "Coverage", None) is not None:
                add("input", _cov(st.Coverage))
    return roles


def _anchor(a):
    if a is None:
        return None
    return (a.XCoordinate, a.YCoordinate)


def cursive_records(tt):
    """[{lookup, flag, rtl, glyph, entry:(x,y)|None, exit:(x,y)|None, format_ok}] over every GPOS
    lookup of (real) type 3, one item per EntryExitRecord."""
    out = []
    for lk in lookups(tt, "GPOS"):
        if lk["type"] != 3:
            continue
        for si, st in enumerate(lk["subtables"]):
            glyphs = list(st.Coverage.glyphs) if st.Coverage is not None else []
            recs = list(st.EntryExitRecord)
            for g, r in zip(glyphs, recs):
                ok = all(a is None or a.Format == 1 for a in (r.EntryAnchor, r.ExitAnchor))
                out.append({"lookup": lk["index"], "subtable": si, "flag": lk["flag"],
                            "rtl": bool(lk["flag"] & 1), "glyph": g,
                            "entry": _anchor(r.EntryAnchor), "exit": _anchor(r.ExitAnchor),
                            "format_ok": ok and len(glyphs) == len(recs)})
    return out


def feature_lookups_by_tag(graph):
    """{featureTag: set(lookup indices)} over the whole FeatureList."""
    out = {}
    for tag, lks in graph["features"]:
        out.setdefault(tag, set()).update(lks)
    return out


def reachable(graph, feature_indices):
    """{featureTag: set(lookup indices)} reachable through the given FeatureIndex list."""
    out = {}
    for i in feature_indices or []:
        if 0 <= i < len(graph["features"]):
            tag, lks = graph["features"][i]
            out.setdefault(tag, set()).update(lks)
    return out
