def define(M):
    F = "Lib/ufo2ft/featureWriters/kernFeatureWriter.py"
    M("C05", "kerningpair_sort_swapped", F,
      "        selfTuple = (self.firstIsClass, self.secondIsClass, self.side1, self.side2)\n        otherTuple = (other.firstIsClass, other.secondIsClass, other.side1, other.side2)",
      "        selfTuple = (not self.firstIsClass, not self.secondIsClass, self.side1, self.side2)\n        otherTuple = (not other.firstIsClass, not other.secondIsClass, other.side1, other.side2)")
    M("C05", "quantize_dropped", F,
      "            value = quantize(value, quantization)\n            result.append(KerningPair(side1, side2, value))",
      "            result.append(KerningPair(side1, side2, value))")
    M("C05", "base_pairs_also_in_mark_lookup", F,
      "            if side1Bases and side2Bases:  # base-to-base\n                basePairs.append(KerningPair(side1Bases, side2Bases, value=pair.value))",
      "            if side1Bases and side2Bases:  # base-to-base\n                basePairs.append(KerningPair(side1Bases, side2Bases, value=pair.value))\n                markPairs.append(KerningPair(side1Bases, side2Bases, value=pair.value))")
    M("C05", "rtl_without_placement", F,
      "            xPlacement=pair.value if rtl else None,", "            xPlacement=None,")
    M("C05", "zero_exception_dropped", F,
      "            if firstIsClass and secondIsClass and value == 0:\n                continue\n            if firstIsClass:\n                side1 = side1Classes[side1]",
      "            if value == 0:\n                continue\n            if firstIsClass:\n                side1 = side1Classes[side1]")
    M("C05", "mark_pairs_lost", F,
      "            if side1Marks and side2Bases:  # mark-to-base\n                markPairs.append(KerningPair(side1Marks, side2Bases, value=pair.value))",
      "            if side1Marks and side2Bases:  # mark-to-base\n                pass")
    M("C05", "skipped_glyph_kept_in_groups", F,
      "                members = {g for g in members if g in allGlyphs}\n",
      "                members = set(members)\n")
    M("C05", "legacy_value_sign", "Lib/ufo2ft/featureWriters/kernFeatureWriter2.py",
      "        xPlacement=pair.value if rtl else None,", "        xPlacement=None,")
