"""Runtime-monitoring framework for googlefonts/ufo2ft (see /verif/DESIGN.md).

Importing this package forces the *current working tree* of the repository onto sys.path
(pure Python: "rebuild" == fresh import in a fresh process) and appends the harness-only
third-party libraries (icontract, deal, jsonschema) at the END of sys.path so that they can
never shadow a package the repository itself depends on (e.g. attrs).
"""
import os
import sys

VERIF = os.path.dirname(os.path.dirname(os.path.abspath(__file__)))
REPO = os.environ.get("VERIF_REPO", "/repo")
_lib = os.path.join(REPO, "Lib")
if _lib not in sys.path[:1]:
    sys.path.insert(0, _lib)
_deps = os.path.join(VERIF, ".deps")
if _deps not in sys.path:
    sys.path.append(_deps)

import warnings  # noqa: E402

warnings.filterwarnings("ignore")
import logging  # noqa: E402

logging.disable(logging.CRITICAL)
