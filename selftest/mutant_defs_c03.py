def define(M):
    M("C03", "rest_not_sorted", "Lib/ufo2ft/util.py",
      "    order.extend(sorted(names))", "    order.extend(names)")
    M("C03", "nonbmp_kept_in_format4", "Lib/ufo2ft/outlineCompiler.py",
      "                k: v for k, v in self.unicodeToGlyphNameMapping.items() if k <= 65535\n",
      "                k: v for k, v in self.unicodeToGlyphNameMapping.items() if k <= 65535 or k == 0x1F600\n")
    M("C03", "duplicate_silently_overwritten", "Lib/ufo2ft/util.py",
      "            if uni not in mapping:\n                mapping[uni] = glyphName\n            else:",
      "            if uni not in mapping or True:\n                mapping[uni] = glyphName\n            else:")
    M("C03", "notdef_not_forced_first", "Lib/ufo2ft/util.py",
      "    if \".notdef\" in names:\n        names.remove(\".notdef\")\n        order.append(\".notdef\")",
      "    if \".notdef\" in names and \".notdef\" not in glyphOrder:\n        names.remove(\".notdef\")\n        order.append(\".notdef\")")
    M("C03", "format12_only_nonbmp", "Lib/ufo2ft/outlineCompiler.py",
      "            nonBMP.update(mapping)\n", "            pass\n")
    M("C03", "uvs_always_nondefault", "Lib/ufo2ft/outlineCompiler.py",
      "                    if glyphName == mapping.get(value):", "                    if False:")
    M("C03", "order_arg_ignored_for_stored", "Lib/ufo2ft/outlineCompiler.py",
      "        if glyphOrder is None:\n            glyphOrder = font.glyphOrder\n        self.glyphOrder",
      "        if glyphOrder is None or font.glyphOrder:\n            glyphOrder = font.glyphOrder\n        self.glyphOrder")
